HOOKS = {
    "guard": "spl_libraries_verif",
    "enable": "RUSTFLAGS='--cfg spl_libraries_verif' (not needed: no hook or instrumentation exists in /repo; every observation goes through public APIs and buffers the harness owns)",
    "baseline_off_cmd": "cd /repo && cargo nextest run --workspace --no-fail-fast --offline || cargo test --workspace --no-fail-fast --offline",
    "source_commits": [],
    "add_only": True,
}

TB = ("Trusted: Lean 4.33 kernel; axioms ⊆ {propext, Classical.choice, Quot.sound} (printed every run); the theorem statements; "
      "the hand-written model's fidelity to the Rust source, which is checked (not proved) on every run by the translator "
      "(constants/tables regenerated from /repo) and the differential correspondence stream; ")

NOTES = {
    "C15": {
        "text": "Kernel-checked: on an account whose data is the canonical encoding of any entry list (repeated types, any free tail) realloc_and_pack of an existing (type, repetition) with any packed "
                "value within the 10 KiB growth limit yields exactly the canonical encoding with that one value replaced and the same free tail — in both code paths (grow: resize, reopen, realloc, pack; "
                "shrink: pack, realloc, resize) — so the data length changes by exactly the size delta; a missing entry or growth beyond the limit is an error with the account untouched. Borsh: the "
                "round-trip law dec(enc a ++ tail) = (a, tail) holds for the primitive codecs and is preserved by every type former for arbitrary component codecs (so for generic items too); hence the "
                "derived packer reports |enc a|, writes enc a, and decodes it back from an oversized slot.",
        "design_ref": "§5 C15",
        "note": TB + "AccountInfo::resize and borsh are modelled (validated by the stream on real runtime-layout accounts and against borsh::to_vec); that the derive expands to the three borsh calls for generic items is checked by compiling derived generic types (harness + macro-lab), not by proof.",
        "technique": "Lean 4 theorem (composition of the TLV refinement with the account-resize model; codec-combinator laws) + differential correspondence on runtime-layout accounts and derived packers",
    },
    "C12": {
        "text": "Kernel-checked composition of the TLV refinement, the list-view refinement and the decoding theorems: on any canonical account state, init either fails leaving the bytes identical (list "
                "already present, or fewer than 12 + 4 + 35 n free bytes) or appends an entry whose value decodes to exactly the given configs; update likewise replaces the entry (longer, shorter, equal) or "
                "fails unchanged (missing list, no room); in a zeroed buffer of size_of(n) init succeeds and reads back exactly while one byte less fails; lists of other instructions read the same before and "
                "after; a second init is rejected; malformed bytes give errors, not panics.",
        "design_ref": "§5 C12",
        "note": TB + "on every account that opens (canonical or not) init and update either succeed or return an error with the bytes bit-identical, and reading never panics on any bytes (C12_openable, C12_read_total); what a *successful* init/update on a non-canonical account reads back is not claimed, as in the property.",
        "technique": "Lean 4 theorem (composition of two refinements, all account states / config lists) + differential correspondence on raw buffers with read-back oracle",
    },
    "C06": {
        "text": "Kernel-checked for any PDA function and fetcher: de_escalate yields a non-signer that is writable iff the resolved meta is writable and the key is absent from or writable somewhere in the "
                "instruction; both helpers leave the pre-existing metas as an untouched prefix and append exactly one de-escalated meta per stored config, so every appended meta is non-signer, writable only "
                "if configured writable, read-only if present only read-only, and writable if configured writable and absent / already writable.",
        "design_ref": "§5 C06",
        "note": TB + "resolution flags are the PodBool bytes of the stored config (any non-zero byte = true).",
        "technique": "Lean 4 theorem (all instructions / stored lists, parametric in PDA function and fetcher) + differential correspondence with clause oracle",
    },
    "C07": {
        "text": "Kernel-checked iff: check_account_infos succeeds exactly when the stored bytes read as a config list no longer than the provided list and every config, resolved against the whole provided "
                "list, equals (key, signer, writable) of the account at the corresponding trailing position; it never panics (short lists, malformed data, unresolvable configs give errors); each kind of "
                "deviation is a corollary.",
        "design_ref": "§5 C07",
        "note": TB + "account data borrows always succeed in the model (no outstanding RefCell borrows).",
        "technique": "Lean 4 iff-theorem + totality (kernel-checked, parametric in the PDA function) + differential correspondence over single-field mutants",
    },
    "C08": {
        "text": "Kernel-checked under the property's precondition (infos mirror the metas; fetcher returns the infos' data): CPI success implies off-chain success with identical metas; off-chain success with a "
                "pool holding every appended key implies CPI success with identical metas; hence both fail together; appended infos are in lockstep with the appended metas (same keys, taken from the pool); "
                "pools in any order give identical metas and info keys.",
        "design_ref": "§5 C08",
        "note": TB + "the only admissible divergence is the CPI helper failing because the pool lacks an info for a resolved key.",
        "technique": "Lean 4 simulation proof between the two resolution loops (kernel-checked) + differential correspondence running both helpers on the same scenarios",
    },
    "C05": {
        "text": "Kernel-checked for every 35-byte config (all 256 kind bytes, any 32 config bytes, any flag bytes), all instruction data and account lists, and *any* PDA function: kind 0 resolves to the "
                "stored key; kinds 1 / >=128 resolve exactly to pda(materialised seeds, executing or indexed program) with each seed kind's range checks spelled out (iff); kind 2 to the 32 bytes at the "
                "indexed position; kinds 3..127 are rejected; flags are always the configured ones; resolution never panics (missing index/range, pda = none, unknown kind all give errors); constructors "
                "store exactly the seed list / key / key-data / index+128 and reject index >= 128.",
        "design_ref": "§5 C05",
        "note": TB + "the arms of `match self.discriminator` in resolve (patterns and guards) are regenerated from the source and proved to dispatch as the model does (C05_source_dispatch); Solana's PDA search is a parameter (validated executable instance in SplModel/Ed25519.lean).",
        "technique": "Lean 4 theorem parametric in the PDA function (kernel-checked) + differential correspondence on final derived keys",
    },
    "C01": {
        "text": "Kernel-checked refinement: every mutating operation of the model (alloc, init_value, realloc, byte/typed write, var-len pack, alloc_and_pack) on the canonical bytes of an abstract entry "
                "list yields the canonical bytes of the abstract successor and the abstract outcome (range, repetition number, success/failure), for every buffer size, 8-byte non-zero tag, length and "
                "state; lifted to all histories from a zeroed buffer by induction. The abstract steps are shown to be read-your-writes (zero-extended/truncated after resize), to change at most the one "
                "addressed entry or append one, to keep insertion order and repetition numbers, and re-opening the bytes (one shared check for the three views) reads the abstract list back at true offsets.",
        "design_ref": "§5 C01",
        "note": TB + "that TlvStateBorrowed/Mut/Owned share check_data is a fact about the source checked by the stream (all three are opened and compared), not by proof. One history in three runs 2-4 consecutive mutations on ONE open handle (multi); a second stream (C15's account histories) covers the account-level rewrite realloc_and_pack_* with repetition numbers.",
        "technique": "Lean 4 refinement to an abstract entry list + induction over operation histories (kernel-checked) + differential correspondence on raw buffers with shadow-list oracle",
    },
    "C03": {
        "text": "Kernel-checked corollaries of the C01 refinement: after any history from a zeroed n-byte buffer the raw bytes are exactly flatten(type ++ LE32 length ++ value) of the logical entry list "
                "followed by zeros up to n (total size preserved by every step, so grown space comes out of the zero tail and released space returns to it as zeros); 12 bytes of overhead per entry; "
                "LE byte j of the length is n/256^j%256. The stream runs one history in three with 2-4 consecutive mutations on ONE open handle (multi), the rest with a fresh handle per operation.",
        "design_ref": "§5 C03",
        "note": TB + "the README's layout description is compared by the stream's independent encoder, not parsed.",
        "technique": "Lean 4 theorem (corollary of the refinement, all histories/sizes) + byte-for-byte differential check against an independent encoder",
    },
    "C04": {
        "text": "Kernel-checked on every byte string (reachable or not): a failed alloc / init_value / alloc_and_pack / realloc returns bit-identical bytes (the model writes the header only after the "
                "length conversion and room check, as the repaired code does; with the old order the theorem is false: 20 zero bytes, length 9), so an openable buffer stays openable; a failed var-len pack "
                "changes no byte outside the entry's value range; on every buffer that opens, alloc, init_value, alloc_and_pack and realloc with a genuine tag never panic (canonical or not), and writes through the "
                "mutable views and var-len packs never panic on any byte string at all.",
        "design_ref": "§5 C04",
        "note": TB + "after a *successful* operation on a non-canonical buffer (garbage behind the terminator) nothing is claimed, as in the property. The length-not-representable branch with enough room needs a buffer of more than 4 GiB: the bigalloc / bigrealloc cases run it on lazily mapped zero pages, and the model's answer is the one C04_unrepresentable_length / C04_unrepresentable_resize prove for every buffer.",
        "technique": "Lean 4 theorem over all byte strings (kernel-checked) + differential correspondence injecting each failing operation at every reached state",
    },
    "C02": {
        "text": "Kernel-checked on every byte string: unpack / get_discriminators / get_bytes / typed get never panic; unpack succeeds iff the bytes are a run of well-formed entries ended by the end "
                "of the buffer, < 8 trailing zero bytes or an all-zero tag (both directions); on such a buffer the listed types are the entries in order, and a (type, repetition) lookup returns exactly "
                "the n-th entry's value range at its true offset (the bytes there are the value) or an error when there is none; a typed lookup succeeds iff the size matches. The three views share "
                "one check in the source and one function in the model; that they stay identical is checked by the stream.",
        "design_ref": "§5 C02",
        "note": TB + "lookups are stated for non-zero type tags (the all-zero tag is the terminator); aligned Pod value types are outside the statement.",
        "technique": "Lean 4 theorem (all byte strings, kernel-checked: totality, iff-characterisation of acceptance, exact lookup semantics) + differential correspondence with independent parser oracle",
    },
    "C09": {
        "text": "Kernel-checked refinement: for every element size/alignment, prefix width, base address and capacity, each of push / remove / element write / stable sort / reopen on a buffer in the documented "
                "layout (LE count, padding, elements back to back, stale tail) produces the vector's outcome and re-establishes the layout with the same capacity (lifted to all histories by induction, "
                "starting from init on any openable buffer); on every buffer whatsoever a failed push/remove leaves all bytes identical (the model stores the element only after the new length is known "
                "to fit, as the repaired code does); a buffer of size_of(n) bytes has capacity n.",
        "design_ref": "§5 C09",
        "note": TB + "capacity < usize::MAX is assumed (memory is smaller than the address space); Rust's slice sort_by is modelled by Lean's stable List.mergeSort.",
        "technique": "Lean 4 refinement theorem + induction over operation histories (kernel-checked) + differential correspondence on raw buffers after every operation",
    },
    "C10": {
        "text": "Kernel-checked for every byte string, base address, element size/alignment and prefix width <= 16 bytes: unpack / unpack_mut / init never panic; a success has length <= capacity = "
                "(buffer - header)/element size (0 and an empty data region for zero-sized elements), an aligned data region and every visible element inside the buffer; short, sloppy, misaligned or "
                "over-long buffers are rejected; read-only and mutable opening are the same function of the bytes. The prefix-to-usize conversion is the code's (saturating after the fix).",
        "design_ref": "§5 C10",
        "note": TB + "bytemuck's try_from_bytes / try_cast_slice rules are transcribed into the model (castSlice) and validated by the stream; memory safety of the unsafe casts inside bytemuck is not modelled. The streams use prefix widths 1, 2, 3, 4, 6, 8 and 16 bytes (the four Pod integers the property names, the primitives u8 and u16, and user-defined 24- and 48-bit prefixes), element types of size 0..35 and alignment 1..16, and every start offset 0..15.",
        "technique": "Lean 4 theorem (all buffers/addresses/type parameters, kernel-checked) + differential correspondence over 32 monomorphisations x 16 alignments",
    },
    "C11": {
        "text": "Kernel-checked for every seed list (any count, literals of any length, all u8 parameters): packing succeeds iff no seed is uninitialised and the documented sizes total <= 32, "
                "never panics, yields exactly the seeds back to back followed by zeros, and unpacking that returns the identical list; for every 32-byte array unpacking is total and a success "
                "re-packs to the consumed prefix + zeros; the same for key-data configs and every byte prefix. The model writes through panicking slice primitives and uses the code's saturating one-byte size.",
        "design_ref": "§5 C11",
        "note": TB + "packed sizes and tag bytes are regenerated from the arms of tlv_size / pack / unpack in the source and proved to be the model's (C11_source_sizes, C11_source_tags); u8 fields are UInt8, Vec<u8> literals are unbounded lists.",
        "technique": "Lean 4 theorem (all seed lists / all 32-byte arrays, kernel-checked) + differential correspondence incl. exact error codes as fidelity notes",
    },
    "C18": {
        "text": "Kernel-checked: a SHA-256 digest has 32 bytes, so both the run-time path (hashv, 8-byte prefix, copy_from_slice) and the compile-time path (digest prefix as a byte-string "
                "literal) succeed and equal the first 8 bytes of the digest of the input's bytes, for every input; the literal model shows `escape s` denotes exactly s for every Unicode string "
                "(no trimming/normalisation); u64/array/slice conversions are lossless, little-endian, and a slice converts iff it has 8 bytes. Slice bounds and LENGTH are regenerated from source.",
        "design_ref": "§5 C18",
        "note": TB + "the Lean SHA-256 is the independent hash (validated against sha2 and NIST vectors, not proved equal to FIPS 180-4); syn's literal parsing and token printing are modelled/validated; "
                "the derive is exercised in-process through discriminator-syn (the proc-macro wrapper itself only forwards to it).",
        "technique": "Lean 4 theorem (all strings / all 64-bit values, kernel-checked) + translator-regenerated slice bounds + differential correspondence on literal source text",
    },
    "C19": {
        "text": "Kernel-checked for every enum description: Rust discriminant numbering, into-ProgramError = Custom(discriminant), lookup is the two-sided inverse when codes are distinct, "
                "to_str = first string-literal #[error] text = Display, default message otherwise; hashed start = first nonce whose SHA-256 bytes 13..17 (LE) reach 7000, later codes +1, wrong "
                "declared start rejected naming the right value. Library enum tables are regenerated from source each run and decided by kernel evaluation (distinct, contiguous, to_str = Display, "
                "lookup inverse on all u32).",
        "design_ref": "§5 C19",
        "note": TB + "thiserror / num_enum / num_derive expansions are modelled (validated by the stream for the library enums); the Lean SHA-256 is validated not proved.",
        "technique": "Lean 4 theorem (all enum descriptions) + decide over regenerated library tables + differential correspondence",
    },
    "C13": {
        "text": "Kernel-checked for every byte width k at once (u16…u128 and beyond): LE encode/decode are mutually inverse, byte j is n/256^j%256, two's-complement signed round trip, "
                "bool read/write, usize conversion succeeds iff the value fits and round-trips, single casts succeed iff length = k, slice casts iff length % k = 0 and alias the same bytes. "
                "Equality with Borsh/Serde/Wincode encoders of the primitive is established by the exhaustive (u16, i16, bool) and sampled correspondence stream, not by proof.",
        "design_ref": "§5 C13",
        "note": TB + "third-party encoders (borsh, serde_json, bincode, wincode) and bytemuck's cast rules are modelled, validated by the stream; feature combinations are checked by cargo check, not modelled. Decoders (slice, one-byte-at-a-time reader, JSON, bincode) are exercised but are outside the property's wording: a difference is printed as a NOTE line and does not fail the check.",
        "technique": "Lean 4 theorem (unbounded width/value, kernel-checked) + exhaustive/sampled differential correspondence + feature-matrix build",
    },
    "C14": {
        "text": "Kernel-checked for every value type with decidable equality and every none value: get is none iff value = none value, Option/COption round trips are the identity, "
                "the only rejected input is some(none-value) (conversions and the Serde path), default is none, encodings are those of the wrapped value (identity wrapper).",
        "design_ref": "§5 C14",
        "note": TB + "Borsh/Serde byte-level encodings of the wrapped type are outside the model (identity wrapper assumed, validated by the stream for Address and a u64 wrapper).",
        "technique": "Lean 4 theorem (generic over the wrapped type, kernel-checked) + differential correspondence with oracle",
    },
    "C16": {
        "text": "Kernel-checked theorems over all byte strings: whenever the (modelled) SPL Token Pack codec or Token-2022 StateWithExtensions::unpack accepts a buffer, "
                "the model of the generic parser returns the same mint/owner/amount (supply/decimals); uninitialised never parses; base layouts parse identically under both ids; and from states: every "
                "well-formed initialised account / mint state (any keys, amounts, option tags, initialised or frozen) packed by the reference codec round-trips through it and parses to its fields under both "
                "ids, and under Token-2022 also behind the account-type marker with extension data of any length (355 excepted). "
                "C16_length_frame / C17_length_frame: on a buffer of 357 bytes or more every function of the parser and of the reference codecs returns what it returns on the buffer's first 166 bytes "
                "followed by 191 zeros, which is how the stream's 10 KiB .. 10 MiB .. 4 GiB buffers are evaluated in the model. "
                "The model is tied to /repo by regenerated offsets/ids and by a differential stream that also validates the reference-codec model against the real interface crates.",
        "design_ref": "§5 C16",
        "note": TB + "the reference codecs (spl-token-interface, spl-token-2022-interface) are modelled in SplModel/TokenRef.lean and validated by the stream, not verified.",
        "technique": "Lean 4 theorem (unbounded, kernel-checked) + translator-regenerated constants + differential correspondence with oracle search",
    },
    "C17": {
        "text": "Kernel-checked exact characterisation of generic_token::{Account,Mint}::unpack on every byte string and program id (no panic branch, mutual exclusion, "
                "unknown ids, exact lengths, 355/marker rule, returned bytes = documented offsets), of the ten trait-level checked getters, and the length frame (nothing past byte 165 is read, no length beyond 356 is special: C17_length_frame). Unchecked getters are modelled with panicking slice primitives, so totality is a theorem, not a convention.",
        "design_ref": "§5 C17",
        "note": TB + "the eight boolean predicates (validity of the four implementors, initialised-byte tests, known-id test) are additionally regenerated from the Rust source expression by expression on every run and proved equal to the model functions (C17_source_predicates), so for them the theorems are re-checked against the current code; bytemuck::from_bytes on a 32-byte align-1 slice is assumed infallible.",
        "technique": "Lean 4 theorem (unbounded, kernel-checked) + translator-regenerated constants + differential correspondence with oracle search",
    },
}

NOT_APPLICABLE = {}
