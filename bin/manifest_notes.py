HOOKS = {
    "guard": "spl_libraries_verif",
    "enable": "RUSTFLAGS='--cfg spl_libraries_verif' (not needed: no hook or instrumentation exists in /repo; every observation goes through public APIs and buffers the harness owns)",
    "baseline_off_cmd": "cd /repo && cargo nextest run --workspace --no-fail-fast --offline || cargo test --workspace --no-fail-fast --offline",
    "source_commits": [],
    "add_only": True,
}

TB = ("Trusted: Lean 4.33 kernel; axioms ⊆ {propext, Classical.choice, Quot.sound} (printed every run); the theorem statements; "
      "the hand-written model's fidelity to the Rust source, which is checked (not proved) on every run by the translator "
      "(constants/tables regenerated from /repo) and the differential correspondence stream; ")

NOTES = {
    "C13": {
        "text": "Kernel-checked for every byte width k at once (u16…u128 and beyond): LE encode/decode are mutually inverse, byte j is n/256^j%256, two's-complement signed round trip, "
                "bool read/write, usize conversion succeeds iff the value fits and round-trips, single casts succeed iff length = k, slice casts iff length % k = 0 and alias the same bytes. "
                "Equality with Borsh/Serde/Wincode encoders of the primitive is established by the exhaustive (u16, i16, bool) and sampled correspondence stream, not by proof.",
        "design_ref": "§5 C13",
        "note": TB + "third-party encoders (borsh, serde_json, wincode) and bytemuck's cast rules are modelled, validated by the stream; feature combinations are checked by cargo check, not modelled.",
        "technique": "Lean 4 theorem (unbounded width/value, kernel-checked) + exhaustive/sampled differential correspondence + feature-matrix build",
    },
    "C14": {
        "text": "Kernel-checked for every value type with decidable equality and every none value: get is none iff value = none value, Option/COption round trips are the identity, "
                "the only rejected input is some(none-value) (conversions and the Serde path), default is none, encodings are those of the wrapped value (identity wrapper).",
        "design_ref": "§5 C14",
        "note": TB + "Borsh/Serde byte-level encodings of the wrapped type are outside the model (identity wrapper assumed, validated by the stream for Address and a u64 wrapper).",
        "technique": "Lean 4 theorem (generic over the wrapped type, kernel-checked) + differential correspondence with oracle",
    },
    "C16": {
        "text": "Kernel-checked theorems over all byte strings: whenever the (modelled) SPL Token Pack codec or Token-2022 StateWithExtensions::unpack accepts a buffer, "
                "the model of the generic parser returns the same mint/owner/amount (supply/decimals); uninitialised never parses; base layouts parse identically under both ids. "
                "The model is tied to /repo by regenerated offsets/ids and by a differential stream that also validates the reference-codec model against the real interface crates.",
        "design_ref": "§5 C16",
        "note": TB + "the reference codecs (spl-token-interface, spl-token-2022-interface) are modelled in SplModel/TokenRef.lean and validated by the stream, not verified.",
        "technique": "Lean 4 theorem (unbounded, kernel-checked) + translator-regenerated constants + differential correspondence with oracle search",
    },
    "C17": {
        "text": "Kernel-checked exact characterisation of generic_token::{Account,Mint}::unpack on every byte string and program id (no panic branch, mutual exclusion, "
                "unknown ids, exact lengths, 355/marker rule, returned bytes = documented offsets). Unchecked getters are modelled with panicking slice primitives, so totality is a theorem, not a convention.",
        "design_ref": "§5 C17",
        "note": TB + "bytemuck::from_bytes on a 32-byte align-1 slice is assumed infallible.",
        "technique": "Lean 4 theorem (unbounded, kernel-checked) + translator-regenerated constants + differential correspondence with oracle search",
    },
}

NOT_APPLICABLE = {}
