"""Extra (non-stream) steps of some properties: feature matrix builds, macro-lab crates."""
import itertools, os, subprocess, time

VERIF = os.path.dirname(os.path.dirname(os.path.abspath(__file__)))
BUILD = os.path.join(VERIF, ".build")
REPO = os.environ.get("VERIF_REPO", "/repo")


def _sh(cmd, cwd=None, env=None, timeout=3000):
    e = dict(os.environ)
    e["CARGO_NET_OFFLINE"] = "true"
    if env:
        e.update(env)
    p = subprocess.run(cmd, cwd=cwd, env=e, stdout=subprocess.PIPE, stderr=subprocess.STDOUT, text=True, timeout=timeout)
    return p.returncode, p.stdout


def pod_features(pid, tier, seed, rundir, log):
    """C13: every feature combination of the pod crate must build (quick: none / bytemuck / all)."""
    feats = ["bytemuck", "serde", "borsh", "wincode"]
    if tier == "thorough":
        combos = [list(c) for r in range(len(feats) + 1) for c in itertools.combinations(feats, r)]
    else:
        combos = [[], ["bytemuck"], feats]
    res = {"name": "pod-feature-matrix", "items": [], "violations": [], "ties_broken": [], "evaluations": 0,
           "distinct_nontrivial": 0, "samples": []}
    for c in combos:
        cmd = ["cargo", "check", "--offline", "--quiet", "-p", "spl-pod", "--no-default-features", "--lib"]
        if c:
            cmd += ["--features", ",".join(c)]
        rc, out = _sh(cmd, cwd=REPO, env={"CARGO_TARGET_DIR": os.path.join(BUILD, "cargo-pod")})
        log.write(f"$ {' '.join(cmd)}\n{out[-1500:]}\n")
        res["evaluations"] += 1
        res["items"].append({"features": c, "ok": rc == 0})
        if rc != 0:
            errs = [l for l in out.split("\n") if l.startswith("error")]
            res["violations"].append(f"spl-pod does not build with features {c or ['(none)']}: {errs[0] if errs else out[-200:]}")
            res["replay_lines"] = [f"podfeatures {','.join(c) or '-'}"]
    res["summary"] = f"{sum(1 for i in res['items'] if i['ok'])}/{len(res['items'])} feature combinations build"
    res["samples"] = [f"cargo check -p spl-pod --no-default-features --features {','.join(c) or '(none)'}" for c in combos[:3]]
    return res
