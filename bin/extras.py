"""Extra (non-stream) steps of some properties: feature matrix builds, macro-lab crates."""
import itertools, os, signal, subprocess, time

VERIF = os.path.dirname(os.path.dirname(os.path.abspath(__file__)))
BUILD = os.path.join(VERIF, ".build")
REPO = os.environ.get("VERIF_REPO", "/repo")


def _sh(cmd, cwd=None, env=None, timeout=900):
    """Own process group; a hung rustc (a derive that does not terminate) is killed with the whole group and
    reported as rc 124."""
    e = dict(os.environ)
    e["CARGO_NET_OFFLINE"] = "true"
    if env:
        e.update(env)
    p = subprocess.Popen(cmd, cwd=cwd, env=e, stdout=subprocess.PIPE, stderr=subprocess.STDOUT, text=True, start_new_session=True)
    try:
        out, _ = p.communicate(timeout=timeout)
    except subprocess.TimeoutExpired:
        try:
            os.killpg(p.pid, signal.SIGKILL)
        except ProcessLookupError:
            pass
        out, _ = p.communicate()
        return 124, (out or "") + f"\nerror: TIMEOUT after {timeout}s (the build did not terminate: a macro that loops?)"
    return p.returncode, out


def pod_features(pid, tier, seed, rundir, log):
    """C13: every feature combination of the pod crate must build (quick: none / bytemuck / all)."""
    feats = ["bytemuck", "serde", "borsh", "wincode"]
    if tier == "thorough":
        combos = [list(c) for r in range(len(feats) + 1) for c in itertools.combinations(feats, r)]
    else:
        combos = [[], ["bytemuck"], feats]
    res = {"name": "pod-feature-matrix", "items": [], "violations": [], "ties_broken": [], "evaluations": 0,
           "distinct_nontrivial": 0, "samples": []}
    for c in combos:
        cmd = ["cargo", "check", "--offline", "--quiet", "-p", "spl-pod", "--no-default-features", "--lib"]
        if c:
            cmd += ["--features", ",".join(c)]
        rc, out = _sh(cmd, cwd=REPO, env={"CARGO_TARGET_DIR": os.path.join(BUILD, "cargo-pod")})
        log.write(f"$ {' '.join(cmd)}\n{out[-1500:]}\n")
        res["evaluations"] += 1
        res["items"].append({"features": c, "ok": rc == 0})
        if rc != 0:
            errs = [l for l in out.split("\n") if l.startswith("error")]
            res["violations"].append(f"spl-pod does not build with features {c or ['(none)']}: {errs[0] if errs else out[-200:]}")
            res["replay_lines"] = [f"podfeatures {','.join(c) or '-'}"]
    res["summary"] = f"{sum(1 for i in res['items'] if i['ok'])}/{len(res['items'])} feature combinations build"
    res["samples"] = [f"cargo check -p spl-pod --no-default-features --features {','.join(c) or '(none)'}" for c in combos[:3]]
    return res


# --------------------------------------------------------------------------------------------
# macro-lab: generated crates that exercise the proc-macros through rustc
# --------------------------------------------------------------------------------------------
import hashlib, random, re, shutil

HARNESS = os.path.join(VERIF, "harness")
DRIVER = os.path.join(VERIF, "lean", ".lake", "build", "bin", "spl_driver")


def _hexs(b):
    return b.hex() if b else "-"


def _rust_str(s, rng):
    """Render a Python str as Rust string-literal source text with random valid choices."""
    out = ['"']
    for ch in s:
        r = rng.randrange(10)
        cp = ord(ch)
        if ch == '"':
            out.append('\\"' if r < 7 else "\\x22")
        elif ch == "\\":
            out.append("\\\\" if r < 7 else "\\u{5c}")
        elif ch == "\r":
            out.append("\\r")
        elif ch == "\n":
            out.append("\\n" if r < 7 else "\n")
        elif ch == "\t" and r < 5:
            out.append("\\t")
        elif ch == "\0":
            out.append("\\0")
        elif cp < 0x20 or cp == 0x7f:
            out.append("\\x%02x" % cp)
        elif r == 9:
            out.append("\\u{%x}" % cp)
        else:
            out.append(ch)
    out.append('"')
    return "".join(out)


def _rand_text(rng, brace_free=True, maxlen=24):
    n = rng.choice([0, 1, 3, 8, 15, maxlen])
    pools = [
        lambda: chr(rng.randrange(0x20, 0x7f)),
        lambda: rng.choice(['"', "\\", "'", " ", "\t", "`", "#", "%", "\n"]),
        lambda: chr(rng.randrange(0xa0, 0x250)),
        lambda: chr(rng.randrange(0x300, 0x370)),
        lambda: chr(rng.choice([0x4e2d, 0x6587, 0x1f600, 0x10ffff, 0xfffd, 0x2028, 0x200b, 0xe000])),
    ]
    s = ""
    for _ in range(n):
        c = rng.choice(pools)()
        if brace_free and c in "{}":
            continue
        if 0xd800 <= ord(c) <= 0xdfff:
            continue
        s += c
    return s


def _ident(rng, camel=True):
    first = "ABCDEFGHJKLMNPQRSTUVWXYZ" if camel else "abcdefghjkmnpqrstuvwxyz"
    rest = "abcdefghijklmnopqrstuvwxyzABCDEFGHIJKLMNOPQRSTUVWXYZ0123456789_"
    n = rng.choice([1, 2, 5, 9, 20])
    return rng.choice(first) + "".join(rng.choice(rest) for _ in range(n - 1))


def _hashed_start(name):
    nonce = 0
    while True:
        h = hashlib.sha256(("spl_program_error:" + name).encode() + nonce.to_bytes(4, "little")).digest()
        d = int.from_bytes(h[13:17], "little")
        if d >= 7000:
            return d, nonce
        nonce += 1


def _lab_crate(labdir, deps):
    os.makedirs(os.path.join(labdir, "src"), exist_ok=True)
    os.makedirs(os.path.join(labdir, ".cargo"), exist_ok=True)
    with open(os.path.join(labdir, "Cargo.toml"), "w") as f:
        f.write('[package]\nname = "spl-verif-macrolab"\nversion = "0.1.0"\nedition = "2021"\npublish = false\n\n[workspace]\n\n[dependencies]\n' + deps +
                '\n[profile.dev]\nopt-level = 0\ndebug = false\n')
    with open(os.path.join(labdir, ".cargo", "config.toml"), "w") as f:
        f.write('[net]\noffline = true\n\n[build]\ntarget-dir = "%s"\n' % os.path.join(BUILD, "cargo"))
    shutil.copy(os.path.join(HARNESS, "Cargo.lock"), os.path.join(labdir, "Cargo.lock"))
    shutil.copy(os.path.join(HARNESS, "rust-toolchain.toml"), os.path.join(labdir, "rust-toolchain.toml"))


def _build_run(labdir, log):
    rc, out = _sh(["cargo", "build", "--offline", "--quiet"], cwd=labdir)
    log.write("$ cargo build (macro-lab %s)\n%s\n" % (labdir, out[-3000:]))
    if rc != 0:
        return None, out
    rc, out2 = _sh([os.path.join(BUILD, "cargo", "debug", "spl-verif-macrolab")], cwd=labdir)
    if rc != 0:
        return None, "macro-lab program failed: " + out2[:1500]
    return out2.split("\n")[:-1], out


def _model_lines(cases):
    p = subprocess.run([DRIVER], input="\n".join(cases) + "\n", stdout=subprocess.PIPE, text=True)
    return p.stdout.split("\n")[:-1]


def _failing_items(out):
    return sorted(set(int(m) for m in re.findall(r"src/item_(\d+)\.rs", out)))


DEPS_ERR = ('spl-program-error = { path = "%s/program-error" }\nsolana-program-error = "3.0.0"\nthiserror = "2.0"\nnum-derive = "0.4"\nnum-traits = "0.2"\nnum_enum = "0.7"\n' % REPO)


def macro_lab_c19(pid, tier, seed, rundir, log):
    """C19: generated error enums through #[spl_program_error], IntoProgramError, ToStr (rustc in the loop)."""
    rng = random.Random(seed * 7919 + 19)
    n_items = 50 if tier == "thorough" else 17
    labdir = os.path.join(BUILD, "macrolab", "C19")
    _lab_crate(labdir, DEPS_ERR)
    res = {"name": "macro-lab-C19", "items": [], "violations": [], "ties_broken": [], "evaluations": 0,
           "distinct_nontrivial": 0, "samples": [], "histogram": {}}
    items = []
    used = set()
    # found once by brute force (harness/src/bin/findname.rs): Bnd3841729940 hashes to exactly the minimum 7000 at
    # nonce 0 (must be accepted there: `>=`), Bnd830103612 to 6999 (must be rejected, the nonce advances), the
    # NonceErr names need a non-zero nonce as well
    # Bnd734120692 / Bnd959397376 / Bnd883233730 hash (nonce 0) to u32::MAX - 4 / - 1 / - 8: with exactly 5 / 2 / 9 variants the
    # enum ends on u32::MAX — it fits, the start is the nonce-0 value, no later nonce may be taken
    exact_fit = {"Bnd734120692": 5, "Bnd959397376": 2, "Bnd883233730": 9}
    corpus_names = ["Bnd3841729940", "NonceErr246485", "Bnd830103612", "Bnd734120692", "ExampleLibraryError", "Bnd959397376", "NonceErr1050261", "Bnd883233730", "E", "TokenError"]
    for k in range(n_items):
        kind = ["spl", "spl_hash", "derive", "tostr", "spl_crate"][k % 5]
        name = corpus_names[k // 5] if kind == "spl_hash" and k // 5 < len(corpus_names) else _ident(rng)
        while name in used:
            name = _ident(rng)
        used.add(name)
        nv = rng.choice([1, 2, 3, 5, 12])
        if kind == "spl_hash" and name in exact_fit:
            nv = exact_fit[name]
        vs, seen = [], set()
        nxt = 0
        for j in range(nv):
            vn = _ident(rng)
            while vn in seen:
                vn = _ident(rng)
            seen.add(vn)
            disc = None
            if kind == "spl_hash" and j == 0 and (k == 1 or rng.random() < 0.4):
                # an explicit discriminant on the first variant of a hashed enum: the hashed start code replaces it
                disc = rng.choice([0, 5, 123456])
            if kind in ("spl", "derive", "spl_crate") and rng.random() < 0.3 and not (j == 0 and kind == "spl_hash"):
                nxt = nxt + rng.choice([0, 1, 7, 1000, 4000000000 - nxt if nxt < 3000000000 else 1])
                disc = nxt
            msg = None if kind == "tostr" else _rand_text(rng)
            vs.append((vn, disc, msg))
            nxt = (disc if disc is not None else nxt) + 1
        start = _hashed_start(name)[0] if kind == "spl_hash" else None
        items.append((kind, name, start, vs))
    # sources
    main = ["#![allow(dead_code, non_camel_case_types, clippy::all)]", "use solana_program_error::{ProgramError, ToStr};",
            "fn hx(s: &str) -> String { if s.is_empty() { \"-\".into() } else { s.bytes().map(|b| format!(\"{:02x}\", b)).collect() } }"]
    cases = []
    heads = {}
    for k, (kind, name, start, vs) in enumerate(items):
        body = []
        for (vn, disc, msg) in vs:
            attrs = "    /// doc\n" if rng.random() < 0.3 else ""
            if msg is not None:
                # a decoy: another attribute that also holds a string literal must not be taken for the message
                if rng.random() < 0.25:
                    attrs += "    #[clippy::verif_decoy(\"not the message\")]\n"
                attrs += "    #[error(%s)]\n" % _rust_str(msg, rng)
            body.append("%s    %s%s," % (attrs, vn, (" = %d" % disc) if disc is not None else ""))
        if kind == "spl":
            head = "#[spl_program_error::spl_program_error]\n"
        elif kind == "spl_crate":
            head = "#[spl_program_error::spl_program_error(solana_program_error = \"solana_program_error\")]\n"
        elif kind == "spl_hash":
            # the two arguments of the attribute, alone and together in either order
            args = ["hash_error_code_start = %d" % start]
            r = (k // 5 + seed) % 3      # the hashed enums of one run cover all three forms, whatever the seed
            if r == 1:
                args.append("solana_program_error = \"solana_program_error\"")
            elif r == 2:
                args.insert(0, "solana_program_error = \"solana_program_error\"")
            head = "#[spl_program_error::spl_program_error(%s)]\n" % ", ".join(args)
        elif kind == "derive":
            head = "#[derive(Clone, Debug, Eq, PartialEq, thiserror::Error, num_derive::FromPrimitive, spl_program_error::IntoProgramError, spl_program_error::ToStr)]\n#[repr(u32)]\n"
        else:
            head = "#[derive(Clone, Debug, PartialEq, spl_program_error::ToStr)]\n#[repr(u32)]\n"
        heads[k] = head.strip()
        src = "use spl_program_error::*;\n" + head + "pub enum %s {\n%s\n}\n" % (name, "\n".join(body))
        with open(os.path.join(labdir, "src", "item_%d.rs" % k), "w") as f:
            f.write(src)
        main.append("mod item_%d;" % k)
        cases.append("enumdesc %s %s %s %s" % (kind, name, start if start is not None else "-",
                     ",".join("%s:%s:%s" % (vn, disc if disc is not None else "-", ("~" if msg is None else _hexs(msg.encode()))) for vn, disc, msg in vs)))
    main.append("fn main() {")
    for k, (kind, name, start, vs) in enumerate(items):
        ty = "item_%d::%s" % (k, name)
        main.append("    {")
        main.append("        let vs: Vec<%s> = vec![%s];" % (ty, ", ".join("%s::%s" % (ty, v[0]) for v in vs)))
        main.append("        let codes: Vec<String> = vs.iter().map(|v| (v.clone() as u32).to_string()).collect();")
        main.append("        let tostr: Vec<String> = vs.iter().map(|v| hx(v.to_str())).collect();")
        if kind != "tostr":
            main.append("        let disp: Vec<String> = vs.iter().map(|v| hx(&format!(\"{}\", v))).collect();")
            main.append("        let pe: Vec<String> = vs.iter().map(|v| match ProgramError::from(v.clone()) { ProgramError::Custom(c) => c.to_string(), _ => \"?\".into() }).collect();")
            main.append("        let look: Vec<String> = vs.iter().map(|v| { let c = v.clone() as u32; match <%s as num_traits::FromPrimitive>::from_u32(c) { Some(x) if x == *v => \"ok\".to_string(), _ => \"bad\".to_string() } }).collect();" % ty)
            main.append("        println!(\"codes={} pe={} tostr={} display={} lookup={}\", codes.join(\",\"), pe.join(\",\"), tostr.join(\",\"), disp.join(\",\"), look.join(\",\"));")
        else:
            main.append("        println!(\"codes={} pe=- tostr={} display=- lookup=-\", codes.join(\",\"), tostr.join(\",\"));")
        main.append("    }")
    main.append("}")
    with open(os.path.join(labdir, "src", "main.rs"), "w") as f:
        f.write("\n".join(main) + "\n")
    impl, out = _build_run(labdir, log)
    res["evaluations"] = len(items)
    res["distinct_nontrivial"] = sum(1 for it in items if len(it[3]) >= 2)
    res["samples"] = cases[:3]
    if impl is None:
        bad = _failing_items(out)
        errs = [l for l in out.split("\n") if l.startswith("error")]
        res["violations"].append("macro-lab C19 does not compile (items %s): %s" % (bad, errs[0] if errs else out[-300:]))
        res["replay_lines"] = [cases[i] for i in bad if i < len(cases)] or cases[:1]
        return res
    model = _model_lines(cases)
    # oracle: expected values straight from the description
    for k, (kind, name, start, vs) in enumerate(items):
        codes, nxt = [], (start if start is not None else 0)
        for j, (vn, disc, msg) in enumerate(vs):
            c = disc if disc is not None else nxt
            if kind == "spl_hash" and j == 0:
                c = start          # the hashed start code is the first variant's code, whatever it declared
            codes.append(c)
            nxt = c + 1
        msgs = [(m if m is not None else "Unknown custom program error") for _, _, m in vs]
        exp = "codes=%s pe=%s tostr=%s display=%s lookup=%s" % (
            ",".join(map(str, codes)), "-" if kind == "tostr" else ",".join(map(str, codes)),
            ",".join(_hexs(m.encode()) for m in msgs), "-" if kind == "tostr" else ",".join(_hexs(m.encode()) for m in msgs),
            "-" if kind == "tostr" else ",".join("ok" for _ in vs))
        if impl[k] != exp:
            res["violations"].append("enum %s (%s, declared with `%s`): macro output `%s` differs from the declared mapping `%s`" % (name, kind, heads.get(k, ""), impl[k][:200], exp[:200]))
            res["replay_lines"] = ["# " + heads.get(k, ""), cases[k]]
        if k < len(model) and model[k] != impl[k]:
            res["ties_broken"].append("macro-lab C19 item %d: model `%s` vs macro `%s`" % (k, model[k][:160], impl[k][:160]))
            res.setdefault("replay_lines", [cases[k]])
        res["items"].append({"kind": kind, "name": name, "variants": len(vs), "ok": impl[k] == exp})
    # a deliberately wrong hashed start must fail to compile naming the right value: one bit off, and the value 0 (the
    # placeholder one writes to make the compiler say the right number; "no start" and "start 0" are different things)
    wrongdir = os.path.join(BUILD, "macrolab", "C19-wrong")
    _lab_crate(wrongdir, DEPS_ERR)
    wname = "Wrong" + _ident(rng)
    right = _hashed_start(wname)[0]
    for declared in (right ^ 1, 0):
        with open(os.path.join(wrongdir, "src", "main.rs"), "w") as f:
            wargs = ["hash_error_code_start = %d" % declared]
            wr = rng.randrange(3)
            if wr == 1:
                wargs.append("solana_program_error = \"solana_program_error\"")
            elif wr == 2:
                wargs.insert(0, "solana_program_error = \"solana_program_error\"")
            f.write("use spl_program_error::*;\n#[spl_program_error(%s)]\npub enum %s {\n    #[error(\"a\")]\n    A,\n}\nfn main() {}\n" % (", ".join(wargs), wname))
        rc, out = _sh(["cargo", "build", "--offline", "--quiet"], cwd=wrongdir)
        log.write("$ cargo build (wrong hashed start %d)\n%s\n" % (declared, out[-1500:]))
        res["evaluations"] += 1
        if rc == 0:
            res["violations"].append("a wrong declared hash_error_code_start compiled (enum %s, declared %d, right %d)" % (wname, declared, right))
            res["replay_lines"] = ["enumdesc spl_hash %s %d A:-:61" % (wname, declared)]
        elif str(right) not in out:
            res["violations"].append("the compile error for a wrong hash_error_code_start (%d) does not name the right value %d" % (declared, right))
            res["replay_lines"] = ["enumdesc spl_hash %s %d A:-:61" % (wname, declared)]
    res["summary"] = "%d generated enums compiled and run (+2 wrong-start crates must fail)" % len(items)
    res["histogram"] = {"kinds": {k: sum(1 for it in items if it[0] == k) for k in ("spl", "spl_hash", "derive", "tostr", "spl_crate")}}
    return res


GENERICS = [
    ("", "", ""),
    ("<'a>", "<'static>", ""),
    ("<T>", "<u8>", ""),
    ("<'b, T>", "<'static, u16>", ""),
    ("<T: Clone>", "<u8>", ""),
    ("<T: Clone + Default, U>", "<u8, String>", ""),
    ("<T> ", "<u32>", "where T: Copy"),
    ("<T: Clone> ", "<u8>", "where T: Default"),
    ("<const N: usize>", "<4>", ""),
    ("<T: Clone, const N: usize = 3>", "<u8, 5>", ""),
    ("<T = u8>", "<u64>", ""),
    ("<'a, T: 'a + Clone, const N: usize>", "<'static, u8, 2>", "where T: Default"),
    # dynamically sized items: a `?Sized` parameter (inline or in the where-clause) used as the struct's last field
    ("<T: ?Sized>", "<str>", ""),
    ("<T> ", "<[u8]>", "where T: ?Sized"),
    ("<'a, T: ?Sized + 'a>", "<'static, dyn core::fmt::Debug>", ""),
    ("<T: ?Sized, U>", "<[u16], u8>", "where U: Copy"),
]


def _fields(gen, unsized_tail=False):
    f = []
    if "'a" in gen:
        f.append("r: &'a [u8]")
    if "'b" in gen:
        f.append("r: &'b [u8]")
    if "T" in gen and not unsized_tail:
        f.append("t: core::marker::PhantomData<T>")
    if "U" in gen:
        f.append("u: core::marker::PhantomData<U>")
    if "N" in gen:
        f.append("n: [u8; N]")
    if "T" in gen and unsized_tail:
        f.append("tail: T")          # the unsized field must be the last one
    return f


def macro_lab_c18(pid, tier, seed, rundir, log):
    """C18: #[derive(SplDiscriminate)] on structs/enums x generics x hash-input literals, through rustc."""
    rng = random.Random(seed * 104729 + 18)
    labdir = os.path.join(BUILD, "macrolab", "C18")
    _lab_crate(labdir, 'spl-discriminator = { path = "%s/discriminator" }\n' % REPO)
    res = {"name": "macro-lab-C18", "items": [], "violations": [], "ties_broken": [], "evaluations": 0,
           "distinct_nontrivial": 0, "samples": [], "histogram": {}}
    n = len(GENERICS) * (2 if tier == "thorough" else 1)
    main = ["#![allow(dead_code, unused, clippy::all)]", "use spl_discriminator::{ArrayDiscriminator, SplDiscriminate};",
            "fn hx(b: &[u8]) -> String { b.iter().map(|x| format!(\"{:02x}\", x)).collect() }"]
    cases, calls = [], []
    for k in range(n):
        gen, inst, where = GENERICS[k % len(GENERICS)]
        s = _rand_text(rng, brace_free=False, maxlen=40)
        lit = _rust_str(s, rng)
        is_enum = (k % 3 == 2)
        extra = rng.choice(["", "#[allow(dead_code)]\n", "#[repr(C)]\n"]) if not is_enum else ""
        fields = _fields(gen, unsized_tail=("?Sized" in gen + where) and not is_enum)
        if is_enum:
            ph = ", ".join(x.split(": ")[1] for x in fields)
            body = "enum I%d%s %s { A, B(%s) }" % (k, gen, where, ph) if fields else "enum I%d%s %s { A, B }" % (k, gen, where)
        else:
            body = "struct I%d%s %s { %s }" % (k, gen, where, ", ".join(fields)) if (fields or where) else "struct I%d%s;" % (k, gen)
            if not fields and where:
                body = "struct I%d%s %s {}" % (k, gen, where)
        src = "use spl_discriminator::SplDiscriminate;\n#[derive(SplDiscriminate)]\n%s#[discriminator_hash_input(%s)]\npub %s\n" % (extra, lit, body)
        with open(os.path.join(labdir, "src", "item_%d.rs" % k), "w") as f:
            f.write(src)
        main.append("mod item_%d;" % k)
        calls.append("    println!(\"rt={} ct={}\", hx(ArrayDiscriminator::new_with_hash_input(%s).as_slice()), hx(<item_%d::I%d%s as SplDiscriminate>::SPL_DISCRIMINATOR_SLICE));" % (lit, k, k, inst))
        cases.append("hash %s %s" % (_hexs(s.encode()), _hexs(lit.encode())))
        res["items"].append({"generics": gen.strip() or "(none)", "where": where, "enum": is_enum})
    main.append("fn main() {")
    main += calls
    main.append("}")
    with open(os.path.join(labdir, "src", "main.rs"), "w") as f:
        f.write("\n".join(main) + "\n")
    impl, out = _build_run(labdir, log)
    res["evaluations"] = n
    res["distinct_nontrivial"] = sum(1 for it in res["items"] if it["generics"] != "(none)")
    res["samples"] = cases[:2] + ["item with generics %s %s" % (GENERICS[9][0], GENERICS[9][2])]
    if impl is None:
        bad = _failing_items(out)
        errs = [l for l in out.split("\n") if l.startswith("error")]
        if out.startswith("macro-lab program failed"):
            # compiled, but computing a discriminator at run time failed (the crate is built as a downstream user
            # builds it: spl-discriminator is the only workspace crate among its dependencies)
            pm = re.search(r"panicked at [^\n]*\n([^\n]*)", out)
            res["violations"].append("the run-time discriminator of the first item could not be computed in a crate that depends on spl-discriminator alone: %s" % (
                pm.group(1).strip() if pm else out[-300:]))
        else:
            res["violations"].append("the SplDiscriminate derive output does not compile for items %s (generics %s): %s" % (
                bad, [GENERICS[i % len(GENERICS)][0] for i in bad], errs[0] if errs else out[-300:]))
        res["replay_lines"] = [cases[i] for i in bad if i < len(cases)] or cases[:1]
        return res
    model = _model_lines(cases)
    for k in range(n):
        exp = hashlib.sha256(bytes.fromhex(cases[k].split()[1]) if cases[k].split()[1] != "-" else b"").digest()[:8].hex()
        if impl[k] != "rt=%s ct=%s" % (exp, exp):
            res["violations"].append("item %d: discriminators `%s` differ from SHA-256[..8] = %s" % (k, impl[k], exp))
            res["replay_lines"] = [cases[k]]
        if k < len(model) and model[k] != impl[k]:
            res["ties_broken"].append("macro-lab C18 item %d: model `%s` vs compiled `%s`" % (k, model[k], impl[k]))
            res.setdefault("replay_lines", [cases[k]])
    res["summary"] = "%d derived items (struct/enum x %d generic shapes) compiled and run" % (n, len(GENERICS))
    return res


def macro_lab_c15(pid, tier, seed, rundir, log):
    """C15: #[derive(SplBorshVariableLenPack)] on generic structs/enums, through rustc, against borsh."""
    rng = random.Random(seed * 15485863 + 15)
    labdir = os.path.join(BUILD, "macrolab", "C15")
    _lab_crate(labdir, 'spl-type-length-value = { path = "%s/type-length-value", features = ["derive"] }\nspl-discriminator = { path = "%s/discriminator" }\nborsh = { version = "1", features = ["derive"] }\nsolana-borsh = "3"\nsolana-program-error = "3.0.0"\n' % (REPO, REPO))
    res = {"name": "macro-lab-C15", "items": [], "violations": [], "ties_broken": [], "evaluations": 0,
           "distinct_nontrivial": 0, "samples": [], "histogram": {}}
    shapes = [
        ("", "", "", "a: u8, s: String", "a: 7, s: \"héllo\".to_string()"),
        ("<T: BorshSerialize + BorshDeserialize>", "<String>", "", "t: T, n: u32", "t: \"x\".to_string(), n: 9"),
        ("<T>", "<Vec<u16>>", "where T: BorshSerialize + BorshDeserialize", "t: T, o: Option<u8>", "t: vec![1u16, 2], o: Some(3)"),
        ("<T: BorshSerialize + BorshDeserialize, U: BorshSerialize + BorshDeserialize>", "<u64, Option<String>>", "", "t: T, u: U", "t: 5u64, u: Some(\"z\".to_string())"),
        ("<const N: usize>", "<3>", "", "b: [u8; N], v: Vec<u8>", "b: [1, 2, 3], v: vec![4, 5]"),
        ("<T: BorshSerialize + BorshDeserialize, const N: usize = 2>", "<bool, 2>", "", "t: T, b: [u8; N]", "t: true, b: [8, 9]"),
    ]
    main = ["#![allow(dead_code, unused, clippy::all)]", "use spl_type_length_value::variable_len_pack::VariableLenPack;", "use borsh::{BorshSerialize, BorshDeserialize};",
            "fn hx(b: &[u8]) -> String { if b.is_empty() { \"-\".into() } else { b.iter().map(|x| format!(\"{:02x}\", x)).collect() } }",
            "fn probe<V: VariableLenPack + BorshSerialize + PartialEq>(v: V) { let e = borsh::to_vec(&v).unwrap(); let l = v.get_packed_len().unwrap(); let mut slot = vec![0xEEu8; e.len() + 3]; v.pack_into_slice(&mut slot).unwrap(); let back = V::unpack_from_slice(&slot).unwrap(); let mut short = vec![0u8; e.len().saturating_sub(1)]; let short_ok = v.pack_into_slice(&mut short).is_ok(); println!(\"len_ok={} bytes_ok={} tail_ok={} back_ok={} short_rejected={}\", l == e.len(), slot[..e.len()] == e[..], slot[e.len()..] == [0xEE, 0xEE, 0xEE], back == v, !short_ok || e.is_empty()); }"]
    calls = []
    for k, (gen, inst, where, fields, init) in enumerate(shapes):
        is_enum = k % 3 == 2
        if is_enum:
            body = "pub enum I%d%s %s { A, B { %s } }" % (k, gen, where, fields)
            val = "item_%d::I%d::%s::B { %s }" % (k, k, inst, init) if inst else "item_%d::I%d::B { %s }" % (k, k, init)
            val = "item_%d::I%d%s::B { %s }" % (k, k, ("::" + inst) if inst else "", init)
        else:
            body = "pub struct I%d%s %s { %s }" % (k, gen, where, ", ".join("pub " + f.strip() for f in fields.split(", ")))
            val = "item_%d::I%d%s { %s }" % (k, k, ("::" + inst) if inst else "", init)
        src = ("use borsh::{BorshDeserialize, BorshSerialize};\nuse spl_discriminator::SplDiscriminate;\nuse spl_type_length_value::SplBorshVariableLenPack;\n"
               "#[derive(Clone, Debug, PartialEq, BorshSerialize, BorshDeserialize, SplBorshVariableLenPack)]\n%s\n" % body)
        with open(os.path.join(labdir, "src", "item_%d.rs" % k), "w") as f:
            f.write(src)
        main.append("mod item_%d;" % k)
        calls.append("    probe(%s);" % val)
        res["items"].append({"generics": gen or "(none)", "where": where, "enum": is_enum})
    # items that are zero-sized IN MEMORY: a unit struct (empty encoding), a one-variant enum (one byte: the variant index) and a
    # struct made of such enums (three bytes) — the size in memory says nothing about the encoded length
    derives = "#[derive(Clone, Debug, PartialEq, BorshSerialize, BorshDeserialize, SplBorshVariableLenPack)]"
    zst = [("pub struct I%d;", "item_%d::I%d", "unit struct"),
           ("pub enum I%d { Yes }", "item_%d::I%d::Yes", "one-variant enum"),
           ("#[derive(Clone, Debug, PartialEq, BorshSerialize, BorshDeserialize)]\npub enum Only%d { Only }\n" + derives + "\npub struct I%d { pub a: Only%d, pub b: [Only%d; 2] }",
            "item_%d::I%d { a: item_%d::Only%d::Only, b: [item_%d::Only%d::Only, item_%d::Only%d::Only] }", "struct of one-variant enums")]
    for j, (body, val, what) in enumerate(zst):
        k = len(shapes) + j
        body = body.replace("%d", str(k))
        if not body.startswith("#[derive"):
            body = derives + "\n" + body
        src = ("use borsh::{BorshDeserialize, BorshSerialize};\nuse spl_discriminator::SplDiscriminate;\nuse spl_type_length_value::SplBorshVariableLenPack;\n" + body + "\n")
        with open(os.path.join(labdir, "src", "item_%d.rs" % k), "w") as f:
            f.write(src)
        main.append("mod item_%d;" % k)
        calls.append("    probe(%s);" % val.replace("%d", str(k)))
        res["items"].append({"generics": "(none)", "where": what, "enum": "enum" in what})
        shapes.append((what, "", "", "", ""))
    main.append("fn main() {")
    main += calls
    main.append("}")
    with open(os.path.join(labdir, "src", "main.rs"), "w") as f:
        f.write("\n".join(main) + "\n")
    impl, out = _build_run(labdir, log)
    res["evaluations"] = len(shapes)
    res["distinct_nontrivial"] = len(shapes) - 1
    res["samples"] = ["derive(SplBorshVariableLenPack) on `struct I%d%s %s`" % (k, s[0], s[2]) for k, s in enumerate(shapes[:3])]
    if impl is None:
        bad = _failing_items(out)
        errs = [l for l in out.split("\n") if l.startswith("error")]
        res["violations"].append("the SplBorshVariableLenPack derive output does not compile for items %s (generics %s): %s" % (
            bad, [shapes[i][0] for i in bad if i < len(shapes)], errs[0] if errs else out[-300:]))
        res["replay_lines"] = ["derive-item %d %s %s" % (i, shapes[i][0].replace(" ", "_"), shapes[i][2].replace(" ", "_")) for i in bad if i < len(shapes)] or ["derive-item ?"]
        return res
    for k, l in enumerate(impl):
        if l != "len_ok=true bytes_ok=true tail_ok=true back_ok=true short_rejected=true":
            res["violations"].append("derived packer of item %d (%s) is not exact: %s" % (k, shapes[k][0], l))
            res["replay_lines"] = ["derive-item %d %s" % (k, shapes[k][0].replace(" ", "_"))]
    res["summary"] = "%d derived generic items compiled and compared with borsh" % len(shapes)
    return res
